---- MODULE Trace_Units ----
(* Validates unit verdicts and conversions answered by the real code against Units.tla, on the unit
   sections of a real schema (read from XML by vf/facts.py). *)
EXTENDS Units, Json, IOUtils, TLCExt
Data == JsonDeserialize(IOEnv.TRACE_FILE)
TU == Data.units
TM == Data.mods
Evs == Data.events
Classes(e) == {e.classes[k] : k \in 1..Len(e.classes)}
DT == [u \in 1..Len(TU) |-> Derived(TU, TM, u)]     \* constant: evaluated once
THits(e) == HitsD(DT, TU, Classes(e), e.raw, e.folded)
\* expected verdict for one event  e = [classes, raw, folded, before, kind ("unit" | "bare"), obs]
Why(e) ==
   IF e.kind = "bare" THEN
        (IF e.obs.invalid THEN "bare-number-reported-invalid"
         ELSE IF e.obs.othererr THEN "bare-number-error"
         ELSE IF e.obs.conv = "exception" THEN "conversion-raises" ELSE "ok")
   ELSE LET hits == THits(e)
            acc == \E h \in hits : TU[h[1]].prefix = e.before
            def == \E h \in hits : TU[h[1]].prefix = e.before /\ TU[h[1]].hasf IN
        IF e.obs.conv = "exception" THEN "conversion-raises"
        ELSE IF acc /\ e.obs.invalid THEN "legal-unit-rejected"
        ELSE IF ~acc /\ ~e.obs.invalid THEN "illegal-unit-accepted"
        ELSE IF acc /\ def /\ e.obs.conv # "value" THEN "conversion-undefined"
        ELSE IF ~acc /\ e.obs.conv = "value" THEN "conversion-of-unrecognised-unit"
        ELSE IF acc /\ def /\ ~e.obs.zero /\ ~(\E h \in hits :        \* (the number zero is explained by every factor)
                                   TU[h[1]].prefix = e.before /\ TU[h[1]].hasf /\ Factor(TU, TM, h) = <<e.obs.fm, e.obs.fe>>)
             THEN "conversion-factor"
        ELSE "ok"
VARIABLES i
vars2 == <<i, q>>
TInit == i = 0 /\ q = <<"", "", FALSE>>
TNext == /\ i < Len(Evs) /\ i' = i + 1 /\ UNCHANGED q
         /\ (IF Why(Evs[i + 1]) = "ok" THEN TRUE ELSE PrintT(<<"REJECT", i + 1, Why(Evs[i + 1])>>))
TSpec == TInit /\ [][TNext]_vars2
Done == i = Len(Evs) => PrintT(<<"CHECKED", i>>)
====
