CONSTANTS
  OpLists <- SeqOpLists
  TableTuples <- SeqTuplesQuick
  MaxRuns = 3
  Leaky = TRUE
SPECIFICATION Spec
INVARIANT ParamsConstant
