------------------------------- MODULE Units -------------------------------
(* Units: which unit texts a value-taking tag accepts and what they convert to (property C11).

   A unit class has units; a unit is a NAME (accepted lower-cased, singular or plural, in any letter
   case) or a SYMBOL (accepted exactly as declared).  SI units may be preceded by an SI modifier of the
   matching kind (name modifiers for names, symbol modifiers for symbols).  A unit with `prefix`
   stands before the number.  Conversion: factor(unit) * factor(modifier), exact decimals held as
   <<mantissa, exp10>>.

   U  : sequence of units  [cls, name, lname, plural, sym, si, prefix, hasf, fm, fe]
   M  : sequence of modifiers [name, lname, sym, fm, fe]
*)
EXTENDS Integers, Sequences, FiniteSets, TLC

\* spellings derived from unit u (set of <<text, modifier index or 0>>); names are matched case-folded, symbols exactly
Derived(U, M, u) ==
   LET base == IF U[u].sym THEN {U[u].name} ELSE {U[u].lname, U[u].plural}
       mods == IF U[u].si THEN {m \in 1..Len(M) : M[m].sym = U[u].sym} ELSE {}
   IN {<<b, 0>> : b \in base} \cup {<<(IF U[u].sym THEN M[m].name ELSE M[m].lname) \o b, m>> : m \in mods, b \in base}

\* lookups of a unit text (raw as written, folded = case-folded) within the classes of a tag.
\* D = [u |-> Derived(U, M, u)]  (passed in so that a caller can evaluate it once)
HitsD(D, U, classes, raw, folded) ==
   UNION {{<<u, d[2]>> : d \in {x \in D[u] : x[1] = (IF U[u].sym THEN raw ELSE folded)}} :
             u \in {z \in 1..Len(U) : U[z].cls \in classes}}
Hits(U, M, classes, raw, folded) == HitsD([u \in 1..Len(U) |-> Derived(U, M, u)], U, classes, raw, folded)
Accepted(U, M, classes, raw, folded, before) ==
   \E h \in Hits(U, M, classes, raw, folded) : U[h[1]].prefix = before
\* exact decimal product
Factor(U, M, h) == IF h[2] = 0 THEN <<U[h[1]].fm, U[h[1]].fe>> ELSE <<U[h[1]].fm * M[h[2]].fm, U[h[1]].fe + M[h[2]].fe>>
\* conversion is defined iff accepted and the unit declares a factor; all hits must then agree
ConvDefined(U, M, classes, raw, folded, before) ==
   \E h \in Hits(U, M, classes, raw, folded) : U[h[1]].prefix = before /\ U[h[1]].hasf

\* ---------------- model mode: an abstract class table ----------------
CONSTANTS MU, MM,    \* model units / modifiers (sequences of records), defined in the MC module
          Queries   \* set of <<raw, folded>> texts (folded = case-folded raw; TLC cannot fold)
VARIABLES q          \* a query: <<raw, folded, before>>
Init == q \in {<<p[1], p[2], b>> : p \in Queries, b \in BOOLEAN}
Next == UNCHANGED q
Spec == Init /\ [][Next]_q
\* a text never selects two different factors within one class (lookup is a function)
LookupFunctional == \A c \in {MU[u].cls : u \in 1..Len(MU)} :
     \A h1, h2 \in Hits(MU, MM, {c}, q[1], q[2]) :
        (MU[h1[1]].hasf /\ MU[h2[1]].hasf /\ MU[h1[1]].prefix = MU[h2[1]].prefix) => Factor(MU, MM, h1) = Factor(MU, MM, h2)
\* a symbol is matched on the raw text only: a case-changed symbol is accepted only if that raw text is itself derived
SymbolsExact == \A c \in {MU[u].cls : u \in 1..Len(MU)} :
     \A h \in Hits(MU, MM, {c}, q[1], q[2]) : MU[h[1]].sym => <<q[1], h[2]>> \in Derived(MU, MM, h[1])
=============================================================================
