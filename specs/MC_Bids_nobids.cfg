\* sensitivity: generator without the BIDS rule -> Deterministic must be violated
CONSTANTS
  Shapes <- Tiny
  MaxSC = 2
  Cols <- ColsDef
  Excluded <- ExcludedDef
  DecoyKinds <- DecoyKindsDef
  DecoyRule <- NoDecoy
  ENFORCE_BIDS = FALSE
  DEEPER_WINS = TRUE
SPECIFICATION Spec
INVARIANT Deterministic
