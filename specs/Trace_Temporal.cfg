CONSTANTS
  L = 10
  Keys <- TKeys
SPECIFICATION TraceSpec
INVARIANT Report
