CONSTANTS
  Shapes <- OneShape
  MaxSC = 2
  Cols <- ColsDef
  Excluded <- ExcludedDef
  DecoyKinds <- DecoyKindsDef
  DecoyRule <- AnyDecoy
  ENFORCE_BIDS = TRUE
  DEEPER_WINS = TRUE
SPECIFICATION Spec
INVARIANT ExcludedIgnored
