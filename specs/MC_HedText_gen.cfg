\* case generation (quick): texts up to length 6, one JSON line each
CONSTANTS
  N = 6
  Bug = "none"
SPECIFICATION GenSpec
INVARIANT Emit
