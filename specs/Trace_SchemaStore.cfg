CONSTANTS
  MaxEdits = 0
  MODE = "partnered"
  NewNames = {}
  UnitNames = {}
  DescKinds = {}
  AttrOpts = {}
  ORDER = "dfs"
  STRIP = TRUE
  REROOT = TRUE
  TSV_UC_PROPS = FALSE
SPECIFICATION TSpec
INVARIANT Verdict
