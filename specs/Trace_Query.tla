---- MODULE Trace_Query ----
(* Judge for concrete cases built by vf/props/c15.py from the REAL HED vocabulary (vf/facts.py):
   one state per recorded item, the spec evaluates it and prints the verdict.
     families : a proposed concretisation of the abstract vocabulary {p, ra, rb, c, v/x}; accepted
                iff every abstract atom matches the real tags exactly as it matches the abstract labels
     cases    : annotation tree + queries (+ a sibling reordering, + the positions of a law tuple)
     texts    : query texts for the tokenizer/parser *)
EXTENDS MC_Query, IOUtils
Input == JsonDeserialize(IOEnv.TRACE_FILE)
Vocab == Input.vocab                       \* [label -> [terms |-> <<..>>, short |-> ".."]]
RealLabels == DOMAIN Vocab
Elems(s) == {s[i] : i \in DOMAIN s}
TermsFor(l) == IF l = GRP THEN {} ELSE Elems(Vocab[l].terms)      \* the vocabulary key IS the short form

\* root -> one state per block of BlockSize items -> one state per item (two-level fan-out so that
\* the TLC workers share the items)
VARIABLES kind, blk, idx
tvars == <<vars, kind, blk, idx>>
BlockSize == 20
Items(k) == CASE k = "family" -> Input.families [] k = "case" -> Input.cases [] k = "text" -> Input.texts
TraceInit == tree = EmptyTree /\ toks = <<>> /\ kind = "root" /\ blk = 0 /\ idx = 0
TraceNext == /\ UNCHANGED vars
             /\ \/ /\ kind = "root"
                   /\ kind' \in {"family", "case", "text"}
                   /\ Len(Items(kind')) > 0
                   /\ blk' \in 0..((Len(Items(kind')) - 1) \div BlockSize)
                   /\ idx' = 0
                \/ /\ kind # "root" /\ idx = 0
                   /\ UNCHANGED <<kind, blk>>
                   /\ idx' \in (blk * BlockSize + 1)..(IF (blk + 1) * BlockSize < Len(Items(kind)) THEN (blk + 1) * BlockSize ELSE Len(Items(kind)))
TraceSpec == TraceInit /\ [][TraceNext]_tvars

\* ---- families
One(l, ts) == [n |-> 1, par |-> <<0>>, lab |-> <<l>>, terms |-> <<ts>>]
AbsOrder == <<"p", "ra", "rb", "c", "v/x">>
FamilyOK(f) == /\ Len(f.atoms) = Len(GA)
               /\ Len(f.labs) = Len(AbsOrder)
               /\ \A i \in 1..Len(GA) : \A j \in 1..Len(AbsOrder) :
                     TagMatches(One(f.labs[j], TermsFor(f.labs[j])), 1, f.atoms[i])
                        = TagMatches(One(AbsOrder[j], AbsTerms[AbsOrder[j]]), 1, GA[i])
               /\ \A j, k \in 1..Len(AbsOrder) : j # k => f.labs[j] # f.labs[k]
               /\ \A j \in 1..Len(AbsOrder) : Vocab[f.labs[j]].short = f.labs[j]

\* ---- cases
TreeOf(c) == [n |-> c.n, par |-> c.par, lab |-> c.lab, terms |-> [k \in 1..c.n |-> TermsFor(c.lab[k])]]
Bools(tr, qs) == [i \in 1..Len(qs) |-> Match(tr, qs[i])]
\* law tuple: positions of  A, B, C, A||B, A&&B, B&&A, (A&&B)&&C, A&&(B&&C)  in qs
LawFails(r, L) ==
    (IF r[L[4]] # (r[L[1]] \/ r[L[2]]) THEN {"OrIff"} ELSE {})
    \cup (IF r[L[5]] /\ ~(r[L[1]] /\ r[L[2]]) THEN {"AndOnlyIfBoth"} ELSE {})
    \cup (IF r[L[5]] # r[L[6]] THEN {"AndSymmetric"} ELSE {})
    \cup (IF r[L[7]] # r[L[8]] THEN {"AndAssociative"} ELSE {})
CaseVerdict(c) ==
    LET t1 == TreeOf(c)
        r == Bools(t1, c.qs)
        hasperm == Len(c.perm) = c.n /\ c.n > 0
        t2 == IF hasperm /\ IsPerm(t1, c.perm) THEN Relabel(t1, c.perm) ELSE t1
        r2 == Bools(t2, c.qs)
    IN [i |-> idx, treeok |-> PreOK(t1) /\ PreOK(t2) /\ \A j \in 1..Len(c.qs) : WellFormed(c.qs[j]),
        res |-> r, res2 |-> r2,
        dw |-> [j \in 1..Len(c.dw) |-> DistinctWitness(t1, c.qs[c.dw[j][1]], c.qs[c.dw[j][2]])],
        atomsok |-> \A j \in 1..Len(c.atoms) : /\ Tokenize(c.atoms[j][1]) = <<c.atoms[j][1]>>
                                                 /\ AtomOf(c.atoms[j][1]) = c.atoms[j][2],
        lawfails |-> IF Len(c.law) = 8 THEN LawFails(r, c.law) ELSE {},
        sibfails |-> {j \in 1..Len(c.qs) : r[j] # r2[j]}]

\* ---- texts
TextVerdict(s) == [i |-> idx, text |-> s, balanced |-> Balanced(s), strict |-> Accepts(s, FALSE),
                   lenient |-> Accepts(s, TRUE), swallowed |-> Swallowed(s),
                   rd |-> RDAccepts(Tokenize(s), TRUE)]

Report == idx = 0 \/
    CASE kind = "family" -> PrintT("@@EMIT@@" \o ToJson([family |-> idx, ok |-> FamilyOK(Input.families[idx])]))
      [] kind = "case"   -> PrintT("@@EMIT@@" \o ToJson([case |-> CaseVerdict(Input.cases[idx])]))
      [] kind = "text"   -> PrintT("@@EMIT@@" \o ToJson([textv |-> TextVerdict(Input.texts[idx])]))
====
