---- MODULE Trace_Query ----
(* Judge for concrete cases built by vf/props/c15.py from the REAL HED vocabulary (vf/facts.py):
   one state per recorded item, the spec evaluates it and prints the verdict.
     families : a proposed concretisation of the abstract vocabulary {p, ra, rb, c, v/x}; accepted
                iff every abstract atom matches the real tags exactly as it matches the abstract labels
     cases    : annotation tree + queries (+ a sibling reordering, + the positions of a law tuple)
     texts    : query texts for the tokenizer/parser *)
EXTENDS MC_Query, IOUtils
Input == JsonDeserialize(IOEnv.TRACE_FILE)
Vocab == Input.vocab                       \* [label -> [terms |-> <<..>>, short |-> ".."]]
RealLabels == DOMAIN Vocab
Elems(s) == {s[i] : i \in DOMAIN s}
TraceTerms == [l \in AbsLabels \cup RealLabels |-> IF l \in AbsLabels THEN AbsTerms[l] ELSE Elems(Vocab[l].terms)]
TraceShort == [l \in AbsLabels \cup RealLabels |-> IF l \in AbsLabels THEN AbsShort[l] ELSE Vocab[l].short]

VARIABLES kind, idx
tvars == <<vars, kind, idx>>
TraceInit == /\ tree = EmptyTree /\ toks = <<>>
             /\ \/ kind = "family" /\ idx \in 1..Len(Input.families)
                \/ kind = "case" /\ idx \in 1..Len(Input.cases)
                \/ kind = "text" /\ idx \in 1..Len(Input.texts)
TraceSpec == TraceInit /\ [][UNCHANGED tvars]_tvars

\* ---- families
One(l) == [n |-> 1, par |-> <<0>>, lab |-> <<l>>]
AbsOrder == <<"p", "ra", "rb", "c", "v/x">>
FamilyOK(f) == /\ Len(f.atoms) = Len(GA)
               /\ Len(f.labs) = Len(AbsOrder)
               /\ \A i \in 1..Len(GA) : \A j \in 1..Len(AbsOrder) :
                     TagMatches(One(f.labs[j]), 1, f.atoms[i]) = TagMatches(One(AbsOrder[j]), 1, GA[i])
               /\ \A j, k \in 1..Len(AbsOrder) : j # k => TraceShort[f.labs[j]] # TraceShort[f.labs[k]]

\* ---- cases
TreeOf(c) == [n |-> c.n, par |-> c.par, lab |-> c.lab]
Bools(T, qs) == [i \in 1..Len(qs) |-> Match(T, qs[i])]
\* law tuple: positions of  A, B, C, A||B, A&&B, B&&A, (A&&B)&&C, A&&(B&&C)  in qs
LawFails(r, L) ==
    (IF r[L[4]] # (r[L[1]] \/ r[L[2]]) THEN {"OrIff"} ELSE {})
    \cup (IF r[L[5]] /\ ~(r[L[1]] /\ r[L[2]]) THEN {"AndOnlyIfBoth"} ELSE {})
    \cup (IF r[L[5]] # r[L[6]] THEN {"AndSymmetric"} ELSE {})
    \cup (IF r[L[7]] # r[L[8]] THEN {"AndAssociative"} ELSE {})
CaseVerdict(c) ==
    LET T == TreeOf(c)
        r == Bools(T, c.qs)
        hasperm == Len(c.perm) = c.n /\ c.n > 0
        T2 == IF hasperm /\ IsPerm(T, c.perm) THEN Relabel(T, c.perm) ELSE T
        r2 == Bools(T2, c.qs)
    IN [i |-> idx, treeok |-> PreOK(T) /\ PreOK(T2) /\ \A j \in 1..Len(c.qs) : WellFormed(c.qs[j]),
        res |-> r, res2 |-> r2,
        dw |-> [j \in 1..Len(c.dw) |-> DistinctWitness(T, c.qs[c.dw[j][1]], c.qs[c.dw[j][2]])],
        lawfails |-> IF Len(c.law) = 8 THEN LawFails(r, c.law) ELSE {},
        sibfails |-> {j \in 1..Len(c.qs) : r[j] # r2[j]}]

\* ---- texts
TextVerdict(s) == [i |-> idx, text |-> s, balanced |-> Balanced(s), strict |-> Accepts(s, FALSE),
                   lenient |-> Accepts(s, TRUE), swallowed |-> Swallowed(s),
                   rd |-> RDAccepts(Tokenize(s), TRUE)]

Report ==
    CASE kind = "family" -> PrintT("@@EMIT@@" \o ToJson([family |-> idx, ok |-> FamilyOK(Input.families[idx])]))
      [] kind = "case"   -> PrintT("@@EMIT@@" \o ToJson([case |-> CaseVerdict(Input.cases[idx])]))
      [] kind = "text"   -> PrintT("@@EMIT@@" \o ToJson([textv |-> TextVerdict(Input.texts[idx])]))
====
