----------------------------- MODULE HedRewrite -----------------------------
(* C04: the verdict of HedRules.tla is invariant under rewriting an annotation:
   - respelling a tag / changing blanks does not touch the abstract tree at all (the rules never look at
     the spelling), so those rewrites are identity on the model and are exercised on the code only;
   - reordering siblings = exchanging the labels of two sibling positions of the tree.
   SwapInvariant: for every tree and every pair of sibling LEAVES, exchanging them leaves the bag of
   error codes unchanged;  SubtreeSwapInvariant does the same for two sibling nodes whose sub-trees are
   single nodes or groups of leaves by exchanging the node numbers in `par`. *)
EXTENDS HedRules
AllCodes == {"BASIC", "TAG_EMPTY", "TAG_GROUP_ERROR", "TEMPORAL_TAG_ERROR", "TAG_NOT_UNIQUE", "TAG_EXPRESSION_REPEATED",
             "PARENTHESES_MISMATCH", "COMMA_MISSING"}
Sw(a, b) == INSTANCE HedRules WITH kind <- [kind EXCEPT ![a] = kind[b], ![b] = kind[a]]
SwapInvariant == \A a, b \in 1..n : (a < b /\ par[a] = par[b] /\ ~IsGroup(a) /\ ~IsGroup(b)) => Sw(a, b)!Codes = Codes
\* exchanging a leaf with a sibling GROUP: renumber - the group takes the leaf's number and vice versa.
\* Only legal when the numbering stays topological: every child of the group has a larger number than the new group number.
Sg(a, b) == INSTANCE HedRules WITH kind <- [kind EXCEPT ![a] = kind[b], ![b] = kind[a]],
                                    par <- [k \in 1..n |-> IF par[k] = b THEN a ELSE IF par[k] = a THEN b ELSE par[k]]
GroupSwapInvariant == \A a, b \in 1..n : (a < b /\ par[a] = par[b] /\ ~IsGroup(a) /\ IsGroup(b)) => Sg(a, b)!Codes = Codes
=============================================================================
