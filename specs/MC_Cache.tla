---- MODULE MC_Cache ----
EXTENDS Cache, Json, TLCExt
ProcsDef == {"p1", "p2", "p3"}
RoleDef == [p \in ProcsDef |-> IF p = "p3" THEN "load" ELSE "populate"]
RoleAllLoad == [p \in ProcsDef |-> "load"]
RoleMixed == [p \in ProcsDef |-> IF p = "p1" THEN "populate" ELSE "load"]
Procs2 == {"p1", "p2"}
Role2 == [p \in Procs2 |-> IF p = "p1" THEN "populate" ELSE "load"]
FilesDef == <<"w", "v">>
Files1 == <<"v">>
\* schedule emission for the replay harness: one JSON line per finished behaviour
EmitDone == AllDone => PrintT("@@EMIT@@" \o ToJson([hist |-> hist, result |-> result, cache |-> cache,
                                                       tmpf |-> tmpf, lockfile |-> lockfile, role |-> Role]))
====
