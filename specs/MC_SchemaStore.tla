---- MODULE MC_SchemaStore ----
EXTENDS SchemaStore, Json
NewNamesDef == {"Delta", "Kappa"}
NewNames3Def == {"Delta", "Kappa", "Zeta"}
UnitNamesDef == {"jiffy"}
UnitNamesSlash == {"jif/fy"}        \* a unit symbol like km/h: a slash inside the NAME of an entry that is not a tag
DescKindsDef == {"none", "plain", "quote"}
DescKindsAllDef == {"none", "plain", "eq", "quote", "qstart", "unicode", "markup"}
AttrOptsDef == { <<"extensionAllowed", {"true"}>>, <<"extensionAllowed", {}>>,
                 <<"suggestedTag", {"Event"}>>, <<"suggestedTag", {"Event", "Object", "Sensory-event"}>>, <<"suggestedTag", {}>>,
                 <<"relatedTag", {"Item", "Measurement-event"}>>, <<"relatedTag", {}>> }
\* one JSON line per reachable abstract schema: the edits that lead to it, the schema's own entries (the partner's
\* entries never change), whether it may be saved, and what each saved XML file must list for those entries
OwnRow(r, stripped) == ~Partnered(s) \/ stripped \/ HasA(r, "inLibrary")
FileView(F, stripped) == [hdr |-> F.hdr,
                      tags |-> SelectSeq(F.tags, LAMBDA r : OwnRow(r, stripped)),
                      ucs |-> {r \in F.ucs : OwnRow(r, stripped) \/ ~r.props},
                      units |-> {r \in F.units : OwnRow(r, stripped)},
                      others |-> {r \in F.others : OwnRow(r, stripped)}]
EmitCase == PrintT("@@EMIT@@" \o ToJson(
   [edits |-> edits, mode |-> MODE, canSave |-> CanSave(s), hdr |-> s.hdr,
    tags |-> {e \in s.tags : Own(e)}, ucs |-> {e \in s.ucs : Own(e)}, units |-> {e \in s.units : Own(e)},
    others |-> {e \in s.others : Own(e)},
    xmlMerged |-> IF CanSave(s) THEN FileView(Written(s, TRUE, "xml"), FALSE) ELSE <<>>,
    xmlUnmerged |-> IF CanSave(s) /\ Partnered(s) THEN FileView(Written(s, FALSE, "xml"), TRUE) ELSE <<>>]))
\* the partner slice the specification is written over (the driver checks it against the partner's XML)
EmitBase == edits = <<>> => PrintT("@@EMIT@@" \o ToJson([base |-> [tags |-> BaseTags, ucs |-> BaseUCs, units |-> BaseUnits, others |-> BaseOthers]]))
====
