---- MODULE MC_Bids ----
EXTENDS Bids, Json
ColsDef == {"kind", "resp"}
ExcludedDef == {"sourcedata", "derivatives", "code", "stimuli", "phenotype"}   \* BidsDataset's default exclude_dirs
DecoyKindsDef == {"derivatives", "code", "othersuffix"}
NoExcluded == {}

AllShapes == [nsub : 1..2, nses : 0..2, ntask : 1..2, nrun : 1..2]
SmallShapes == [nsub : 1..2, nses : 0..1, ntask : 1..2, nrun : 1..2]
QuickShapes == {sh \in [nsub : 1..2, nses : 0..2, ntask : 1..2, nrun : 1..2] :
                   sh.nsub + sh.nses + sh.ntask + sh.nrun <= 5}
OneShape == {[nsub |-> 1, nses |-> 1, ntask |-> 2, nrun |-> 1]}

\* design runs: every decoy set with every shape
AnyDecoy(sh, d) == TRUE
\* generation runs: one decoy set per shape (rotating), so that the number of trees stays replayable
DecoyList == <<{"derivatives"}, {"code", "othersuffix"}, {}, {"derivatives", "othersuffix"}>>
RotDecoy(sh, d) == d = DecoyList[((sh.nsub + 2 * sh.nses + sh.ntask + 2 * sh.nrun) % 4) + 1]

F == AllFiles
G == Inheritable(F)
PathMap(m) == [c \in DOMAIN m |-> Path(m[c])]

EvOut == {[path |-> Path(f), chain |-> [i \in 1..Len(Chain(G, f)) |-> Path(Chain(G, f)[i])], merged |-> PathMap(Merged(G, f))]
            : f \in Targets(F)}
ScOut == {[path |-> Path(s), cols |-> s.cols, chain |-> [i \in 1..Len(Chain(G, s)) |-> Path(Chain(G, s)[i])],
           merged |-> PathMap(Merged(G, s))] : s \in Sidecars(F)}
DecoyOut == {[path |-> Path(f), ext |-> f.ext, cols |-> f.cols] : f \in DecoyFiles(decoy)}
Emit == PrintT("@@EMIT@@" \o ToJson([shape |-> shape, decoy |-> decoy, nsc |-> Cardinality(scs),
                                       events |-> EvOut, sidecars |-> ScOut, decoys |-> DecoyOut]))
====
