---- MODULE MC_Bids ----
EXTENDS Bids, Json
ColsDef == {"kind", "resp"}
ExcludedDef == {"sourcedata", "derivatives", "code", "stimuli", "phenotype"}   \* BidsDataset's default exclude_dirs
DecoyKindsDef == ExcludedDef \cup {"othersuffix"}
NoExcluded == {}

AllShapes == [nsub : 1..2, nses : 0..2, ntask : 1..2, nrun : 1..2]
NEvents(sh) == sh.nsub * (IF sh.nses = 0 THEN 1 ELSE sh.nses) * sh.ntask * sh.nrun
Shape(a, b, c, d) == [nsub |-> a, nses |-> b, ntask |-> c, nrun |-> d]
Tiny == {Shape(1, 0, 1, 1)}
OneSes == {Shape(1, 1, 1, 1)}
OneShape == {Shape(1, 1, 2, 1)}
UpTo2 == {sh \in AllShapes : NEvents(sh) <= 2}
\* exhaustive tree generation for the replay (<= 2 sidecars): quick / thorough tier
GenQuick == {Shape(1, 0, 1, 1), Shape(1, 0, 2, 1)}
GenThorough == {Shape(1, 0, 1, 1), Shape(1, 0, 2, 1), Shape(2, 0, 1, 1), Shape(1, 0, 1, 2), Shape(1, 1, 1, 1)}

\* design runs: every decoy set / no decoys and all decoys / no decoys
AnyDecoy(sh, d) == TRUE
TwoDecoy(sh, d) == d = {} \/ d = DecoyKindsDef
NoDecoy(sh, d) == d = {}
\* generation runs: one decoy set per shape (rotating), so that the number of trees stays replayable
\* (the first set puts files into ALL default-excluded directories: neighbours in the directory listing, "phenotype" included)
DecoyList == <<ExcludedDef, {"code", "othersuffix"}, {}, {"derivatives", "phenotype", "othersuffix"}>>
RotDecoy(sh, d) == d = DecoyList[((sh.nsub + 2 * sh.nses + sh.ntask + 2 * sh.nrun) % 4) + 1]

\* ---- emission: one JSON line per tree with what the specification prescribes for every file ----
F == AllFiles
G == Inheritable(F)
PathMap(m) == [c \in DOMAIN m |-> Path(m[c])]

PathSeq(ch) == [i \in 1..Len(ch) |-> Path(ch[i])]
EvOut == {LET ch == Chain(G, f) IN [path |-> Path(f), chain |-> PathSeq(ch), merged |-> PathMap(Fold(ch))] : f \in Targets(F)}
ScOut == {LET ch == Chain(G, s) IN [path |-> Path(s), cols |-> s.cols, chain |-> PathSeq(ch), merged |-> PathMap(Fold(ch))]
            : s \in Sidecars(F)}
DecoyOut == {[path |-> Path(f), ext |-> f.ext, cols |-> f.cols] : f \in DecoyFiles(decoy)}
Emit == PrintT("@@EMIT@@" \o ToJson([shape |-> shape, decoy |-> decoy, nsc |-> Cardinality(scs),
                                       events |-> EvOut, sidecars |-> ScOut, decoys |-> DecoyOut]))
====
