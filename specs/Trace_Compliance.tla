---- MODULE Trace_Compliance ----
(* Validates seeded-fault observations recorded from the real compliance checker against Compliance.tla.
   Data = [S |-> facts of the schema (vf/facts.py), events |-> << e, ... >>]; one state per event. *)
EXTENDS Compliance, Json, IOUtils
Data == JsonDeserialize(IOEnv.TRACE_FILE)
TS == Norm(Data.S)          \* constant: evaluated once
Evs == Data.events
VARIABLE i
TInit == i = 0 /\ c = [f |-> "dupNode", fv |-> [sec |-> "tag", ph |-> FALSE, kids |-> FALSE, sibs |-> FALSE, lib |-> FALSE, dep |-> FALSE, gen |-> "old"], s |-> 0]
TNext == /\ i < Len(Evs) /\ i' = i + 1 /\ UNCHANGED c
         /\ LET w == Why(TS, Evs[i + 1]) IN
            (IF w = "ok" THEN TRUE
             ELSE PrintT(<<"REJECT", i + 1, w, IF Evs[i + 1].fault = "released" THEN "" ELSE
                              (LET V == Verdict(TS, Evs[i + 1]) IN IF V = {} THEN "" ELSE (CHOOSE r \in V : TRUE).code)>>))
TSpec == TInit /\ [][TNext]_<<i, c>>
Done == i = Len(Evs) => PrintT(<<"CHECKED", i>>)
====
