---- MODULE MC_Assemble ----
EXTENDS Assemble, Json, SequencesExt
RowList == SetToSeq(Rows)
Emit == (n >= 1) => PrintT("@@EMIT@@" \o ToJson([par |-> par, kind |-> kind, akind |-> akind, hkind |-> hkind, h2 |-> h2,
             rows |-> [i \in 1..Cardinality(Rows) |-> [cells |-> RowList[i], alive |-> Survivors(RowList[i]), extras |-> Extras(RowList[i]), h2part |-> H2Part(RowList[i])]]]))
====
