CONSTANTS
  TermsOf <- AbsTerms
  ShortOf <- AbsShort
  Variant = "ok"
  Labels <- L3
  MaxNodes = 1
  MaxDepth = 4
  Alphabet <- AlphaFull
  MaxToks = 4
  Gen <- Atoms
SPECIFICATION SpecTexts
INVARIANT PDAEqualsRD
INVARIANT UnbalancedRejected
INVARIANT StrictImpliesLenient
