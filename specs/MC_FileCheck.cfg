CONSTANTS
  MaxRows = 2
SPECIFICATION Spec
INVARIANT ShuffleLaw
INVARIANT LabelsTrue
INVARIANT Emit
