CONSTANTS
  Trees <- TraceTrees
  Chunks = 2
  LockChunks = 2
  TaskArgs <- NoArgs
  OpsIds <- NoArgs
  MaxCrash = 20
  MaxCreate = 20
  MaxHist = 200
  MaxHistUnlisted = 200
  RECORD_FIRST = FALSE
  OVERWRITE = FALSE
  READ_LIVE = FALSE
SPECIFICATION TraceSpec
INVARIANT Report
