\* history generation (simulate): complete creation, then {modify, delete, restore[tasks], remodel[tasks], create again}
CONSTANTS
  Trees <- TreesPick3
  Chunks = 2
  LockChunks = 2
  TaskArgs <- TaskArgsDef
  OpsIds <- Ops2
  MaxCrash = 0
  MaxCreate = 2
  MaxHist = 5
  MaxHistUnlisted = 1
  RECORD_FIRST = FALSE
  OVERWRITE = FALSE
  READ_LIVE = FALSE
SPECIFICATION Spec
INVARIANT EmitHist
INVARIANT NeverHalfValid
INVARIANT NoOverwrite
INVARIANT RestoreIdentity
INVARIANT RestoreTasksOnlyThose
INVARIANT RemodelFromOriginals
INVARIANT RemodelIdempotent
