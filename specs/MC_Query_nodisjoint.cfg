CONSTANTS
  LabelTerms <- AbsTerms
  Variant = "nodisjoint"
  Labels <- L3
  MaxNodes = 3
  MaxDepth = 4
  Alphabet <- AlphaCore
  MaxToks = 1
  USize = 1
SPECIFICATION SpecTrees
INVARIANT AndDistinctTags
