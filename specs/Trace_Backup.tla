---- MODULE Trace_Backup ----
(* Trace validation for Backup.tla: runs recorded from the REAL backup / restore / remodel entry points
   (vf/props/c18.py, file-system steps from vf/fsstep.py) must be behaviours of the specification.
   Every event carries the projection of the real directory after the step; one TLC run validates a batch. *)
EXTENDS Backup, Json, IOUtils, TLCExt
\* one file per recorded run: <TRACE_DIR>/t<i>.json, i in 1..TRACE_N  (a file is read once, in TraceInit)
TraceAt(i) == JsonDeserialize(IOEnv.TRACE_DIR \o "/t" \o ToString(i) \o ".json")
NTraces == atoi(IOEnv.TRACE_N)
TraceTrees == {}
NoArgs == {}
VARIABLES tid, l, evs      \* evs: the events of trace tid (kept in the state so that the file is read once per trace)
tvars == <<vars, tid, l, evs>>
Evs == evs
Ev == Evs[l]
TraceInit == \E i \in 1..NTraces : LET T == TraceAt(i) IN tid = i /\ InitFor(T.tree) /\ evs = T.ev /\ l = 1
IsEv(op) == l <= Len(Evs) /\ Ev.op = op /\ l' = l + 1 /\ UNCHANGED <<tid, evs>>
\* projected content of a real file: k chunks present; identity known unless the file is empty
Same(c, e) == c.k = e.k /\ (c.k <= 0 \/ (c.o = e.o /\ c.v = e.v /\ c.r = e.r))
PostData == \A i \in Idx : Same(data'[i], Ev.data[i])
PostBk == \A i \in Idx : Same(bk'[i], Ev.bk[i])
PostLock == lock'.k = Ev.lock.k /\ (lock'.k = LockChunks => lock'.rec = Ev.lock.rec)
PostDirs == dirs' = {Ev.dirs[j] : j \in 1..Len(Ev.dirs)}
PostRes == lastop'.res = Ev.res
Post == PostData /\ PostBk /\ PostLock /\ PostDirs /\ PostRes
TraceNext ==
   \/ IsEv("start") /\ Start /\ Post
   \/ IsEv("mkdir") /\ (MkBk \/ MkRoot \/ MkDir) /\ Post
   \/ IsEv("copy_open") /\ CopyOpen /\ Post
   \/ IsEv("copy_write") /\ CopyWrite /\ Post
   \/ IsEv("copy_meta") /\ CopyMeta /\ Post
   \/ IsEv("lock_open") /\ LockOpen /\ Post
   \/ IsEv("lock_write") /\ LockWrite /\ Post
   \/ IsEv("lock_close") /\ LockClose /\ Post
   \/ IsEv("crash") /\ (Crash \/ CrashCaught) /\ Post
   \/ IsEv("iofail") /\ IOFail /\ Post
   \/ IsEv("retry") /\ Retry /\ Post
   \/ IsEv("reopen") /\ Reopen /\ Post
   \/ IsEv("modify") /\ Modify(Ev.arg[1]) /\ Post
   \/ IsEv("delete") /\ Delete(Ev.arg[1]) /\ Post
   \/ IsEv("damage") /\ Damage(Ev.arg[1]) /\ Post
   \/ IsEv("restore") /\ Restore(Ev.t) /\ Post
   \/ IsEv("remodel") /\ Remodel(Ev.t, Ev.o) /\ Post
TraceSpec == TraceInit /\ [][TraceNext]_tvars
\* verdicts are total: every trace prints ACCEPT or is reported as rejected at its longest matched prefix
Report == /\ (l = Len(Evs) + 1 => PrintT(<<"ACCEPT", tid>>))
          /\ PrintT(<<"AT", tid, l>>)
          /\ (~NeverHalfValid => PrintT(<<"INV", tid, l, "NeverHalfValid">>))
          /\ (~NoOverwrite => PrintT(<<"INV", tid, l, "NoOverwrite">>))
          /\ (~RestoreIdentity => PrintT(<<"INV", tid, l, "RestoreIdentity">>))
          /\ (~RestoreTasksOnlyThose => PrintT(<<"INV", tid, l, "RestoreTasksOnlyThose">>))
          /\ (~RestoreTouchesOnlyRecorded => PrintT(<<"INV", tid, l, "RestoreTouchesOnlyRecorded">>))
          /\ (~RemodelFromOriginals => PrintT(<<"INV", tid, l, "RemodelFromOriginals">>))
          /\ (~RemodelIdempotent => PrintT(<<"INV", tid, l, "RemodelIdempotent">>))
====
