\* expected values for recorded cases (used for the replay files of rejected cases)
CONSTANTS
  N = 0
  Bug = "none"
SPECIFICATION TraceSpec
INVARIANT Explain
