\* one grammar step (add a node / copy a sub-tree / flattened copy) from pairs of sibling groups with the same tags in different nesting
CONSTANTS
  MaxN = 16
  Kinds <- KindsPlain
  Bases <- BasesConfusable
  MaxSteps = 1
  DUP = TRUE
  SFlaws <- SFlawsDef
SPECIFICATION Spec
INVARIANT EmitNear
