CONSTANTS
  OpLists = {}
  TableTuples = {}
  MaxRuns = 12
  Leaky = FALSE
SPECIFICATION TraceSpec
INVARIANT Report
INVARIANT TraceProps
