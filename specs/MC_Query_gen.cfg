CONSTANTS
  TermsOf <- AbsTerms
  ShortOf <- AbsShort
  Variant = "ok"
  Labels <- L5
  MaxNodes = 3
  MaxDepth = 4
  Alphabet <- AlphaCore
  MaxToks = 1
  Gen <- GenSmallQ
SPECIFICATION SpecTrees
INVARIANT EmitTree
